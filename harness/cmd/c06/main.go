// C06 harness (part b of the property): N independent executions of the same generated block on the same prior state, in
// SEPARATE PROCESSES (persistent workers with different GOMAXPROCS and cold / warm state cache), through the real
// Chain.UpdateState (generator path) and the real Block.ComputeState + Transaction.VerifyOutputHash (verifier path).
// Compared: state root, change count, per-transaction status and output, event list.
//
// A case is a list of ops: `init <fork> <eventdb> <clock>`, then one `txn …` line per transaction of the block, then `exec`.
// There is no model stream (the Lean side of C06 is the map-range site table and the shape lemmas, tied by the translator
// xc06): the oracle is the property itself.
package main

import (
	"bufio"
	"encoding/json"
	"fmt"
	"io"
	"math/rand"
	"os"
	"os/exec"
	"strconv"
	"strings"
	"sync"

	"verifharness/lib/corr"
)

// ---- worker pool ------------------------------------------------------------------------------------------------------

type worker struct {
	mu   sync.Mutex
	cmd  *exec.Cmd
	in   io.WriteCloser
	out  *bufio.Reader
	name string
}

type workerCfg struct {
	procs int
	warm  bool
}

var (
	workers    []*worker
	workersOnc sync.Once
	nWorkers   = 8
)

func startWorkers() {
	workersOnc.Do(func() {
		for i, a := range os.Args {
			if (a == "-tier" || a == "--tier") && i+1 < len(os.Args) && os.Args[i+1] == "thorough" {
				nWorkers = 16
			}
		}
		if os.Getenv("C06_WORKERS") != "" {
			nWorkers, _ = strconv.Atoi(os.Getenv("C06_WORKERS"))
		}
		exe, err := os.Executable()
		if err != nil {
			panic(err)
		}
		for i := 0; i < nWorkers; i++ {
			cfg := workerCfg{procs: 1, warm: i%2 == 1}
			if (i/2)%2 == 1 {
				cfg.procs = 16
			}
			cmd := exec.Command(exe, "-c06worker")
			cmd.Env = append(os.Environ(), fmt.Sprintf("GOMAXPROCS=%d", cfg.procs), fmt.Sprintf("C06_WARM=%v", cfg.warm))
			cmd.Stderr = os.Stderr
			in, _ := cmd.StdinPipe()
			out, _ := cmd.StdoutPipe()
			if err := cmd.Start(); err != nil {
				panic(err)
			}
			workers = append(workers, &worker{cmd: cmd, in: in, out: bufio.NewReaderSize(out, 1<<20), name: fmt.Sprintf("w%d(procs=%d,warm=%v)", i, cfg.procs, cfg.warm)})
		}
	})
}

func (w *worker) call(req *request) ([]*result, error) {
	w.mu.Lock()
	defer w.mu.Unlock()
	b, _ := json.Marshal(req)
	if _, err := w.in.Write(append(b, '\n')); err != nil {
		return nil, err
	}
	line, err := w.out.ReadBytes('\n')
	if err != nil {
		return nil, fmt.Errorf("%s: %v", w.name, err)
	}
	var r []*result
	if err := json.Unmarshal(line, &r); err != nil || len(r) == 0 {
		return nil, fmt.Errorf("%s: bad answer %q", w.name, truncate(string(line), 200))
	}
	return r, nil
}

func short(h string) string {
	if len(h) > 16 {
		return h[:16]
	}
	return h
}

func truncate(s string, n int) string {
	if len(s) > n {
		return s[:n] + "…"
	}
	return s
}

// ---- a case ----------------------------------------------------------------------------------------------------------------

type request struct {
	Fork    bool     `json:"fork"`
	EventDb bool     `json:"eventdb"`
	Clock   string   `json:"clock"`    // "fixed" | "wall": block time = wall clock at start of the case + 2 s (the lock is then staked "in the future")
	WallT0  int64    `json:"wall_t0"`  // the parent's wall clock (seconds) for clock=wall, so that all workers build identical transactions
	DelayMs int      `json:"delay_ms"` // sleep before executing the block under test
	Txns    []string `json:"txns"`
	Repeat  int      `json:"repeat"` // executions of the block by each worker (each on a fresh state)
	Verify  *expect  `json:"verify,omitempty"` // verifier path: Block.ComputeState against these
}

type expect struct {
	Root         string   `json:"root"`
	OutputHashes []string `json:"output_hashes"`
	Skip         []bool   `json:"skip"` // transactions the generating execution rejected: they are not part of the block
}

type txnResult struct {
	Status  int      `json:"status"`
	Output  string   `json:"output"`
	Err     string   `json:"err,omitempty"`
	Root    string   `json:"root"`    // state root after the transaction
	Changes int      `json:"changes"` // change count after the transaction
	Events  []string `json:"events"`
}

type result struct {
	Root         string      `json:"root"`
	Changes      int         `json:"changes"`
	Txns         []txnResult `json:"txns"`
	Events       []string    `json:"events"`
	OutputHashes []string    `json:"output_hashes"`
	VerifyErr    string      `json:"verify_err,omitempty"`
	Panic        string      `json:"panic,omitempty"`
}

type detail struct {
	what string // root | changes | status | output | events-order | events | verify | worker
	txn  int
	kind string
	msg  string
}

var side sync.Map // hash(ops) -> *detail

func kindOfTxn(t string) string {
	w := strings.Fields(t)
	if len(w) == 0 {
		return "?"
	}
	switch w[0] {
	case "next":
		return "next"
	case "gov":
		if len(w) > 1 {
			return "gov-" + w[1]
		}
	}
	return w[0]
}

func sortedCopy(xs []string) []string {
	c := append([]string(nil), xs...)
	// insertion sort is fine here
	for i := 1; i < len(c); i++ {
		for j := i; j > 0 && c[j] < c[j-1]; j-- {
			c[j], c[j-1] = c[j-1], c[j]
		}
	}
	return c
}

// rawKeys: the submitted keys of a governance line
func rawKeys(t string) []string {
	w := strings.Fields(t)
	if len(w) < 4 || w[0] != "gov" {
		return nil
	}
	var ks []string
	for _, kv := range w[3:] {
		ks = append(ks, unesc(strings.SplitN(kv, "=", 2)[0]))
	}
	return ks
}

// aliased: two DIFFERENT keys the call works on are equal up to surrounding white space and letter case. storagesc applies
// the whole staged map — everything submitted by earlier update_settings calls of the case as well — on every call.
func aliased(txns []string, k int) bool {
	raw := map[string]bool{}
	for _, key := range rawKeys(txns[k]) {
		raw[key] = true
	}
	if kindOfTxn(txns[k]) == "gov-storage" {
		for _, t := range txns[:k] {
			if kindOfTxn(t) == "gov-storage" {
				for _, key := range rawKeys(t) {
					raw[key] = true
				}
			}
		}
	}
	folded := map[string]bool{}
	for key := range raw {
		f := strings.ToLower(strings.TrimSpace(key))
		if folded[f] {
			return true
		}
		folded[f] = true
	}
	return false
}

func cause(txns []string, k int) string {
	t := txns[k]
	if kindOfTxn(t) == "commit" {
		// commit applies the staged map: the keys of all earlier storagesc update_settings calls of the case
		kk := k
		for kk > 0 && kindOfTxn(txns[kk]) != "gov-storage" {
			kk--
		}
		if kindOfTxn(txns[kk]) == "gov-storage" && aliased(txns, kk) {
			return "-alias"
		}
		return ""
	}
	if !strings.HasPrefix(kindOfTxn(t), "gov-") {
		return ""
	}
	if aliased(txns, k) {
		return "-alias"
	}
	if kk := kindOfTxn(t); kk == "gov-faucet" || kk == "gov-vesting" {
		return "-early-return" // `default: return setCostValue(…)` ends their loop on a cost key
	}
	return ""
}

// txn kind -> the goroutine site its contract call runs through (Props/C06.lean goroutine table)
var concurrentSite = map[string]string{"chalresp": "verifyChallengeTickets", "newalloc": "GetItemsByIDs"}

const tagAddOrOverwriteUser = "3:11:" // event.TypeStats : event.TagAddOrOverwriteUser

func compareAll(txns []string, rs []*result) []*detail {
	var all []*detail
	seen := map[string]bool{}
	add := func(d *detail) {
		// transactions whose contract code fans out to goroutines: any difference between executions is schedule dependence
		if d.kind == "unit-distribute" {
			d.what, d.kind = "map-order-dependent-output", "GetOrderedPools"
		}
		if site, ok := concurrentSite[d.kind]; ok && (d.what == "status" || d.what == "error-output" || d.what == "state" || d.what == "changes") {
			d.msg = d.what + ": " + d.msg
			d.what, d.kind = "schedule-dependent-output", site
		}
		k := d.what + ":" + d.kind
		if !seen[k] {
			seen[k] = true
			all = append(all, d)
		}
	}
	a := rs[0]
	for i, r := range rs[1:] {
		who := fmt.Sprintf("execution 0 vs %d", i+1)
		if len(r.Txns) != len(a.Txns) {
			return []*detail{{"worker", -1, "", who + ": different number of transaction results"}}
		}
	txnLoop:
		for k := range a.Txns {
			x, y := a.Txns[k], r.Txns[k]
			kind := kindOfTxn(txns[k])
			switch {
			case x.Status != y.Status || x.Err != y.Err:
				// the state diverges from here on: later transactions of this pair of executions cannot be attributed
				if kind == "commit" {
					kind += cause(txns, k)
				}
				add(&detail{"status", k, kind, fmt.Sprintf("%s: txn %d %q: status %d %q versus status %d %q", who, k, truncate(txns[k], 120), x.Status, truncate(x.Output+x.Err, 150), y.Status, truncate(y.Output+y.Err, 150))})
				break txnLoop
			case x.Output != y.Output && x.Status == 2:
				// only the output differs; the state is the same, so the comparison goes on
				add(&detail{"error-output", k, kind, fmt.Sprintf("%s: txn %d %q fails in both, with output %q versus %q", who, k, truncate(txns[k], 120), truncate(x.Output, 150), truncate(y.Output, 150))})
				continue
			case x.Output != y.Output || x.Root != y.Root:
				add(&detail{"state", k, kind + cause(txns, k), fmt.Sprintf("%s: txn %d %q succeeds in both; state root after it %s versus %s, output %q versus %q", who, k, truncate(txns[k], 120), short(x.Root), short(y.Root), truncate(x.Output, 60), truncate(y.Output, 60))})
				break txnLoop
			case x.Changes != y.Changes:
				add(&detail{"changes", k, kind, fmt.Sprintf("%s: txn %d %q: change count after it %d versus %d", who, k, truncate(txns[k], 120), x.Changes, y.Changes)})
				break txnLoop
			}
			if strings.Join(x.Events, "\n") != strings.Join(y.Events, "\n") {
				if strings.Join(sortedCopy(x.Events), "\n") == strings.Join(sortedCopy(y.Events), "\n") {
					onlyUsers := true
					first := ""
					for j := range x.Events {
						if x.Events[j] != y.Events[j] {
							if first == "" {
								first = fmt.Sprintf("position %d: %s versus %s", j, x.Events[j], y.Events[j])
							}
							if !strings.HasPrefix(x.Events[j], tagAddOrOverwriteUser) || !strings.HasPrefix(y.Events[j], tagAddOrOverwriteUser) {
								onlyUsers = false
							}
						}
					}
					kk := kind
					if onlyUsers {
						kk = "user-events"
					}
					add(&detail{"events-order", k, kk, fmt.Sprintf("%s: txn %d %q: same events in another order, %s", who, k, truncate(txns[k], 120), first)})
					continue
				}
				add(&detail{"events", k, kind, fmt.Sprintf("%s: txn %d %q: different events", who, k, truncate(txns[k], 120))})
			}
		}
		if len(all) == 0 && (r.Root != a.Root || r.Changes != a.Changes) {
			add(&detail{"state", -1, "block", who + ": final root / change count differ although every transaction agreed"})
		}
	}
	return all
}

// expected: the kinds of difference already recorded as findings; an unexpected one in the same block is reported first
func expected(d *detail) bool {
	switch d.what {
	case "error-output":
		return strings.HasPrefix(d.kind, "gov-")
	case "state":
		return d.kind == "commit-alias" || strings.HasPrefix(d.kind, "gov-storage-") || strings.HasPrefix(d.kind, "gov-faucet-") || strings.HasPrefix(d.kind, "gov-vesting-")
	case "status":
		return d.kind == "gov-faucet" || d.kind == "gov-vesting" || d.kind == "unlock" || d.kind == "commit-alias"
	case "events-order":
		return d.kind == "user-events"
	}
	return false
}

func compare(txns []string, rs []*result) *detail {
	all := compareAll(txns, rs)
	for _, d := range all {
		if !expected(d) {
			return d
		}
	}
	if len(all) > 0 {
		return all[0]
	}
	return nil
}


func impl(ops []string) []string {
	startWorkers()
	outs := make([]string, len(ops))
	req := &request{Clock: "fixed"}
	for i, op := range ops {
		w := strings.Fields(op)
		switch {
		case len(w) == 5 && w[0] == "init":
			rep, _ := strconv.Atoi(w[4])
			if rep < 1 {
				rep = 1
			}
			req = &request{Fork: w[1] == "1", EventDb: w[2] == "1", Clock: w[3], Repeat: rep}
			outs[i] = "ok"
		case len(w) >= 2 && w[0] == "txn":
			req.Txns = append(req.Txns, strings.Join(w[1:], " "))
			outs[i] = "ok"
		case len(w) == 1 && w[0] == "exec":
			outs[i] = execCase(ops, req)
			req = &request{Fork: req.Fork, EventDb: req.EventDb, Clock: req.Clock, Repeat: req.Repeat}
		default:
			outs[i] = "bad-op"
		}
	}
	return outs
}

var execMu sync.Mutex

func execCase(ops []string, req *request) string {
	execMu.Lock() // one case at a time: the workers are the parallelism
	defer execMu.Unlock()
	if req.Clock == "wall" {
		req.WallT0 = nowUnix()
	}
	rss := make([][]*result, len(workers))
	errs := make([]error, len(workers))
	var wg sync.WaitGroup
	for i, w := range workers {
		wg.Add(1)
		go func(i int, w *worker) {
			defer wg.Done()
			r := *req
			if req.Clock == "wall" && i >= len(workers)/2 && strings.Contains(strings.Join(req.Txns, " "), "unlock") {
				r.DelayMs = 2700 // the second half of the executions happens 2.7 s later (the stake is "staked at" T0 + 2 s)
			}
			rss[i], errs[i] = w.call(&r)
		}(i, w)
	}
	wg.Wait()
	var rs []*result
	for i, e := range errs {
		if e != nil {
			side.Store(hashOps(ops), &detail{"worker", -1, "", e.Error()})
			return "differ worker " + strconv.Itoa(i)
		}
		for _, r := range rss[i] {
			if r.Panic != "" {
				side.Store(hashOps(ops), &detail{"worker", -1, "", "panic in worker: " + r.Panic})
				return "differ worker-panic " + strconv.Itoa(i)
			}
			rs = append(rs, r)
		}
	}
	if os.Getenv("C06_SHOW") != "" {
		for k, t := range rs[0].Txns {
			fmt.Fprintf(os.Stderr, "  [%d] %s -> status %d %s\n", k, truncate(req.Txns[k], 60), t.Status, truncate(t.Output+t.Err, 160))
		}
	}
	d := compare(req.Txns, rs)
	if d == nil && req.Clock != "wall" {
		// verifier path: the real Block.ComputeState and VerifyOutputHash against execution 0
		vr := *req
		vr.Verify = &expect{Root: rs[0].Root, OutputHashes: rs[0].OutputHashes}
		for _, t := range rs[0].Txns {
			vr.Verify.Skip = append(vr.Verify.Skip, t.Status <= 0)
		}
		vr.Repeat = 1
		vss := make([][]*result, len(workers))
		for i, w := range workers {
			wg.Add(1)
			go func(i int, w *worker) {
				defer wg.Done()
				r := vr
				vss[i], errs[i] = w.call(&r)
			}(i, w)
		}
		wg.Wait()
		for i, e := range errs {
			if e != nil {
				side.Store(hashOps(ops), &detail{"worker", -1, "", e.Error()})
				return "differ worker " + strconv.Itoa(i)
			}
		}
		for i, vv := range vss {
			v := vv[0]
			if v.Panic != "" {
				d = &detail{"worker", -1, "", "panic in verifier: " + v.Panic}
				break
			}
			if v.VerifyErr == "" {
				continue
			}
			msg := fmt.Sprintf("verifier %d — the real Block.ComputeState / VerifyOutputHash on the block produced by execution 0 — rejects it: %s", i, truncate(v.VerifyErr, 160))
			// attribute the rejection: first transaction whose status/output in the verifier's run differs from execution 0 …
			for k := range rs[0].Txns {
				if k >= len(v.Txns) || vr.Verify.Skip[k] {
					continue
				}
				x, y := rs[0].Txns[k], v.Txns[k]
				kind := kindOfTxn(req.Txns[k])
				if x.Status != y.Status {
					if kind == "commit" {
						kind += cause(req.Txns, k)
					}
					d = &detail{"status", k, kind, msg + fmt.Sprintf("; txn %d %q: status %d versus %d", k, truncate(req.Txns[k], 120), x.Status, y.Status)}
				} else if x.Output != y.Output && x.Status == 2 {
					d = &detail{"error-output", k, kind, msg + fmt.Sprintf("; txn %d %q: output %q versus %q", k, truncate(req.Txns[k], 120), truncate(x.Output, 120), truncate(y.Output, 120))}
				} else if x.Output != y.Output {
					d = &detail{"state", k, kind + cause(req.Txns, k), msg + fmt.Sprintf("; txn %d %q: output %q versus %q", k, truncate(req.Txns[k], 120), truncate(x.Output, 60), truncate(y.Output, 60))}
				}
				if d != nil {
					break
				}
			}
			if d != nil {
				if site, ok := concurrentSite[d.kind]; ok {
					d.msg = d.what + ": " + d.msg
					d.what, d.kind = "schedule-dependent-output", site
				}
			}
			if d == nil {
				// … else a state difference without an output difference: more generator-path executions, compared per transaction
				again := *req
				again.Repeat = 8
				var more []*result
				for _, w := range workers {
					if rr, err := w.call(&again); err == nil {
						more = append(more, rr...)
					}
				}
				if dd := compare(req.Txns, append([]*result{rs[0]}, more...)); dd != nil {
					dd.msg = msg + "; " + dd.msg
					d = dd
				} else {
					d = &detail{"verify", -1, "unattributed", msg}
				}
			}
			break
		}
	}
	if d != nil {
		side.Store(hashOps(ops), d)
		return "differ " + d.what
	}
	side.Delete(hashOps(ops))
	return fmt.Sprintf("agree %d executions root %s changes %d", len(rs), rs[0].Root[:12], rs[0].Changes)
}

func oracle(ops, outs []string) *corr.Violation {
	for _, o := range outs {
		if strings.HasPrefix(o, "harness-panic") {
			return &corr.Violation{Signature: "C06:harness-panic", Message: o, Ops: ops, Impl: outs}
		}
	}
	v, ok := side.Load(hashOps(ops))
	if !ok {
		return nil
	}
	d := v.(*detail)
	sig := d.what
	if d.kind != "" {
		sig += ":" + d.kind
	}
	clock := ""
	for _, o := range ops {
		if w := strings.Fields(o); len(w) == 5 && w[0] == "init" && w[3] == "wall" {
			clock = ":wall-clock"
		}
	}
	return &corr.Violation{Signature: "C06:" + sig + clock, Message: d.msg, Ops: ops, Impl: outs}
}

// ---- generator --------------------------------------------------------------------------------------------------------------

func pick(r *rand.Rand, xs ...string) string { return xs[r.Intn(len(xs))] }

var people = []string{"owner", "alice", "bob", "carol", "delegate"}

func genGov(r *rand.Rand) string {
	type ep struct {
		tag  string
		good []string
		bad  []string
	}
	eps := []ep{
		{"miner", []string{"max_n=8", "min_n=2", "max_delegates=100", "t_percent=0.5", "cost.update_settings=10", "reward_rate=0.9"}, []string{"max_n=x", "nope=1", "zzz=3", "min_n=q", "t_percent=abc", "cost.add_miner=y"}},
		{"globals", []string{"server_chain.block.max_block_size=77", "server_chain.block.min_generators=3", "server_chain.transaction.min_fee=0.1"}, []string{"nope1=1", "server_chain.owner=x", "server_chain.block.max_block_size=q", "server_chain.dbs.events.name=z"}},
		{"storage", []string{"max_delegates=150", "max_charge=0.4", "cost.update_settings=11", "time_unit=720h"}, []string{"nope1=1", "max_delegates=x", "zzz=3", "time_unit=1.2.3"}},
		{"faucet", []string{"pour_amount=2", "individual_reset=2h"}, []string{"pour_amount=x", "max_pour_amount=y", "nope=1", "global_rest=q"}},
		{"vesting", []string{"max_destinations=4", "min_duration=3m"}, []string{"max_description_length=1.2.3", "nope=0.5", "min_duration=x"}},
		{"zcn", []string{"min_stake=1", "max_fee=5", "max_delegates=20"}, []string{"min_burn=x", "nope=0.5", "max_delegates=q", "cost.mint=5"}},
	}
	e := eps[r.Intn(len(eps))]
	caller := "owner"
	if r.Intn(6) == 0 {
		caller = pick(r, "alice", "bob")
	}
	var kvs []string
	used := map[string]bool{}
	add := func(kv string) {
		k := strings.SplitN(kv, "=", 2)[0]
		if !used[k] {
			used[k] = true
			kvs = append(kvs, kv)
		}
	}
	switch r.Intn(10) {
	case 0, 1, 2, 3, 4: // at least two invalid fields
		for len(kvs) < 2+r.Intn(2) {
			add(e.bad[r.Intn(len(e.bad))])
		}
		if r.Intn(2) == 0 {
			add(e.good[r.Intn(len(e.good))])
		}
	case 5, 6: // valid
		for n := 1 + r.Intn(3); len(kvs) < n && len(kvs) < len(e.good); {
			add(e.good[r.Intn(len(e.good))])
		}
	case 7: // keys naming one setting twice
		switch e.tag {
		case "storage":
			kvs = []string{"max_delegates=11", "%20max_delegates=22", "max_delegates%20=33"}
		case "faucet":
			kvs = []string{"cost.pour=11", "cost.POUR=22", "cost.Pour=33", "cost.pOUR=44"}
		case "vesting":
			kvs = []string{"cost.add=11", "cost.ADD=22", "cost.Add=33"}
		default:
			add(e.good[0])
		}
	case 8: // an accepted cost key ends the loop (faucet, vesting)
		switch e.tag {
		case "faucet":
			kvs = []string{"cost.pour=5", "pour_amount=3", "max_pour_amount=300", "periodic_limit=3000"}
			if r.Intn(2) == 0 {
				kvs = []string{"cost.pour=5", "pour_amount=x", "max_pour_amount=y", "periodic_limit=z"}
			}
		case "vesting":
			kvs = []string{"cost.add=5", "max_destinations=7", "max_description_length=9", "min_duration=1s"}
			if r.Intn(2) == 0 {
				kvs = []string{"cost.add=5", "max_destinations=x", "max_description_length=y", "min_duration=z"}
			}
		default:
			add(e.bad[0])
			add(e.good[0])
		}
	default:
		add(e.good[r.Intn(len(e.good))])
		add(e.bad[r.Intn(len(e.bad))])
	}
	return "gov " + e.tag + " " + caller + " " + strings.Join(kvs, " ")
}

func gen(r *rand.Rand, thorough bool, i int) []string {
	fork := r.Intn(2)
	edb := r.Intn(2)
	reps := 1
	if thorough {
		reps = 4 // 16 workers x 4 = 64 executions per block
	}
	ops := []string{fmt.Sprintf("init %d %d fixed %d", fork, edb, reps)}
	n := 2 + r.Intn(6)
	if thorough {
		n = 2 + r.Intn(14)
	}
	locked := false
	// most cases have a history block first: a warm node has its values in the state cache, a cold one reads the trie
	if r.Intn(10) < 7 {
		ops = append(ops, "txn gov miner owner max_n=8", "txn "+pick(r, "gov storage owner max_charge=0.4", "gov faucet owner pour_amount=2", "send alice bob 3", "gov zcn owner min_stake=1 max_fee=5"), "txn next")
	}
	for k := 0; k < n; k++ {
		if k > 0 && r.Intn(6) == 0 {
			ops = append(ops, "txn next")
		}
		switch x := r.Intn(100); {
		case x < 14:
			// a governance call that is applied in place and then fails in validate, carrying cost.* keys, followed — in the same or
			// in the next block — by a call that saves the same node
			fail, save := "gov miner owner cost.add_miner=7777 cost.update_settings=9 min_n=0", "gov miner owner max_delegates=300"
			switch r.Intn(4) {
			case 1:
				fail, save = "gov miner owner cost.payfees=1 max_n=2 min_n=3", "gov miner owner cost.add_sharder=12"
			case 2:
				fail, save = "gov zcn owner max_fee=0 min_stake=5 max_delegates=33", "gov zcn owner min_stake=1 max_fee=5"
			case 3:
				fail, save = "gov faucet owner pour_amount=5 max_pour_amount=1", "gov faucet owner individual_reset=2h"
			}
			ops = append(ops, "txn "+fail)
			if r.Intn(2) == 0 {
				ops = append(ops, "txn next")
			}
			ops = append(ops, "txn "+save)
		case x < 24:
			letters := "gcbsk"
			v := ""
			for j := 0; j < 6; j++ {
				if r.Intn(2) == 0 {
					v += "g"
				} else {
					v += string(letters[r.Intn(len(letters))])
				}
			}
			if r.Intn(4) == 0 {
				ops = append(ops, fmt.Sprintf("txn unit-distribute %d %d %d", 2+r.Intn(7), 1+r.Intn(50), 1+r.Intn(1000)))
			} else if r.Intn(3) == 0 {
				ops = append(ops, "txn newalloc "+pick(r, "blobber ghost1 ghost2", "ghost2 blobber ghost1 ghost3", "ghost1 ghost2"))
			} else {
				ops = append(ops, "txn chalresp "+v)
			}
		case x < 30:
			// storagesc before the fork: staged cost + a value that fails validate at commit, then a good commit
			ops = append(ops, "txn gov storage owner cost.add_blobber=7777 max_delegates=0", "txn commit")
			if r.Intn(2) == 0 {
				ops = append(ops, "txn next")
			}
			ops = append(ops, "txn gov storage owner max_delegates=5", "txn commit")
		case x < 45:
			ops = append(ops, "txn "+genGov(r))
		case x < 65:
			from := people[r.Intn(len(people))]
			to := people[r.Intn(len(people))]
			if to == from {
				to = "blobber"
			}
			ops = append(ops, fmt.Sprintf("txn send %s %s %d", from, to, 1+r.Intn(1000)))
		case x < 75:
			ops = append(ops, "txn pour "+pick(r, "alice", "bob", "carol"))
		case x < 88:
			ops = append(ops, fmt.Sprintf("txn lock %s %d", pick(r, "delegate", "alice"), 10+r.Intn(50)))
			locked = true
		case x < 96:
			if locked || r.Intn(3) == 0 {
				ops = append(ops, "txn unlock "+pick(r, "delegate", "alice"))
			} else {
				ops = append(ops, "txn commit")
			}
		default:
			ops = append(ops, "txn commit")
		}
	}
	return append(ops, "exec")
}

func fixed() [][]string {
	return [][]string{
		// the unlock test against the wall clock: the stake is locked "2 s in the future"; half of the executions run 3.5 s later
		{"init 0 0 wall 1", "txn lock delegate 20", "txn unlock delegate", "exec"},
		{"init 0 0 fixed 1", "txn lock delegate 20", "txn unlock delegate", "exec"},
		// two invalid fields
		{"init 0 0 fixed 1", "txn gov miner owner max_n=x nope=1 zzz=3 min_n=q", "exec"},
		{"init 1 0 fixed 1", "txn gov storage owner max_delegates=11 %20max_delegates=22 max_delegates%20=33", "exec"},
		{"init 0 0 fixed 1", "txn gov storage owner max_delegates=11 %20max_delegates=22 max_delegates%20=33", "txn commit", "exec"},
		{"init 0 0 fixed 1", "txn gov faucet owner cost.pour=11 cost.POUR=22 cost.Pour=33 cost.pOUR=44", "exec"},
		{"init 0 0 fixed 1", "txn gov vesting owner cost.add=5 max_destinations=7 max_description_length=9 min_duration=1s", "exec"},
		{"init 0 0 fixed 1", "txn gov faucet owner cost.pour=5 pour_amount=x max_pour_amount=y periodic_limit=z", "exec"},
		{"init 0 0 fixed 1", "txn gov vesting owner cost.add=5 max_destinations=x max_description_length=y min_duration=z", "exec"},
		// user events (a send touches sender, receiver and the fee receiver)
		{"init 0 1 fixed 1", "txn send alice bob 5", "txn send bob carol 7", "exec"},
		{"init 0 0 fixed 1", "txn send alice bob 5", "txn pour carol", "txn gov miner owner max_n=8", "txn gov globals owner server_chain.block.max_block_size=77", "exec"},
		// goroutine scheduling: challenge_response with differently-bad tickets (one goroutine per ticket; the error of the lowest
		// index must be reported whatever the completion order), many executions per worker at GOMAXPROCS 1 and 16
		{"init 0 0 fixed 60", "txn chalresp gcgggb", "exec"},
		{"init 0 0 fixed 60", "txn chalresp sgbgck", "exec"},
		{"init 0 0 fixed 20", "txn chalresp cbsk", "txn chalresp gggggg", "exec"},
		// reward distribution over delegate pools with EQUAL balances and an indivisible remainder (stakepool.DistributeRewards ->
		// equallyDistributeRewards -> GetOrderedPools): who gets the left-over units must not depend on map order
		{"init 0 0 fixed 40", "txn unit-distribute 3 10 100", "txn unit-distribute 5 7 23", "txn unit-distribute 8 1000000 1000003", "exec"},
		// state.GetItemsByIDs: several absent ids — the "not present" error of the lowest index
		{"init 0 0 fixed 40", "txn newalloc blobber ghost1 ghost2 ghost3", "txn newalloc ghost3 ghost1 blobber", "exec"},
		// cache warmth: an update that is applied in place and then fails in validate must not leak into a later save (history block first)
		{"init 0 0 fixed 1", "txn gov miner owner max_delegates=201", "txn next", "txn gov miner owner cost.add_miner=7777 min_n=0", "txn gov miner owner max_delegates=300", "exec"},
		{"init 0 0 fixed 1", "txn gov miner owner max_delegates=201", "txn next", "txn gov miner owner cost.add_miner=7777 max_n=2 min_n=3", "txn next", "txn gov miner owner max_delegates=300", "exec"},
		{"init 0 0 fixed 1", "txn gov zcn owner min_stake=1 max_fee=5", "txn next", "txn gov zcn owner max_fee=0 max_delegates=33", "txn gov zcn owner max_fee=6", "exec"},
		{"init 0 0 fixed 1", "txn gov faucet owner pour_amount=2", "txn next", "txn gov faucet owner pour_amount=5 max_pour_amount=1", "txn gov faucet owner individual_reset=2h", "exec"},
		{"init 0 0 fixed 1", "txn gov storage owner max_charge=0.4", "txn commit", "txn next", "txn gov storage owner cost.add_blobber=7777 max_delegates=0", "txn commit", "txn gov storage owner max_delegates=5", "txn commit", "exec"},
	}
}

func main() {
	if len(os.Args) > 1 && os.Args[1] == "-c06worker" {
		workerMain()
		return
	}
	corr.Main(corr.Prop{
		ID: "C06", Model: "", Gen: gen, Impl: impl, Oracle: oracle, Serial: true,
		Cases: func(th bool) int {
			if th {
				return 500
			}
			return 80
		},
		Fixed: fixed(),
		Nontrivial: func(ops, outs []string) bool { return len(ops) >= 4 },
		Extra: func() map[string]interface{} {
			return map[string]interface{}{"executions_per_block": nWorkers, "worker_settings": "GOMAXPROCS 1/16 x cold/warm state cache, separate processes",
				"paths": "generator path (Chain.UpdateState per txn) in every process; verifier path (Block.ComputeState + VerifyOutputHash against execution 0) in every process"}
		},
	})
	for _, w := range workers {
		w.in.Close()
	}
}
