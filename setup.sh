#!/bin/bash
# MANIFEST.setup_cmd: offline build of everything the checks need (Lean library + model driver, Go harnesses).
# The checks rebuild incrementally afterwards; this only warms the caches so quick checks stay quick.
set -u
cd "$(dirname "$0")"
export GOFLAGS=-mod=mod GOPROXY=off GOSUMDB=off GOWORK=off GOTOOLCHAIN=local
mkdir -p build evidence replays
python3 tools/genlake.py
mods=$(python3 - <<'PY'
import json,glob
ms=[]
for f in sorted(glob.glob('checks/C*.json')):
    c=json.load(open(f))
    for m in c.get('lean_modules',[])+['zdrv-'+t for t in c.get('drvs',[c['drv']] if c.get('drv') else [])]:
        if m not in ms: ms.append(m)
print(' '.join(ms))
PY
)
(cd lean && lake build $mods 2>&1 | grep -v '^trace' | tail -15)
rc=0
# warm the Go build cache: compile every harness once (hooks injected through -overlay by ./check itself)
python3 - <<'PY' || rc=1
import json,glob,subprocess,sys,os
sys.path.insert(0,'.')
import importlib.machinery, importlib.util
loader = importlib.machinery.SourceFileLoader('chk', './check')
spec = importlib.util.spec_from_loader('chk', loader); chk = importlib.util.module_from_spec(spec); loader.exec_module(chk)
bad=0
for f in sorted(glob.glob('checks/C*.json')):
    c=json.load(open(f))
    for cmd in ([c['harness']] if c.get('harness') else [])+[e['cmd'] for e in c.get('extract',[])]:
        out=os.path.join(chk.BUILD,'warm_'+cmd)
        ok,msg,dt=chk.go_build(c['property_id'],cmd,c.get('overlay',[]) if cmd==c.get('harness') else [],out)
        print('go build',cmd,'ok' if ok else 'FAILED',round(dt,1),'s')
        if os.path.exists(out): os.remove(out)
        if not ok: print(msg); bad=1
sys.exit(bad)
PY
exit $rc
