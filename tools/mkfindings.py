#!/usr/bin/env python3
"""Rewrites the block between <!-- FINDINGS:BEGIN --> and <!-- FINDINGS:END --> in DESIGN.md from known_findings.jsonl
and the seeded-change table between <!-- SEEDED:BEGIN --> / <!-- SEEDED:END --> from seeded/*/meta.json."""
import json, os, glob, re
V = os.path.dirname(os.path.dirname(os.path.abspath(__file__)))
rows = []
for l in open(os.path.join(V, 'known_findings.jsonl')):
    l = l.strip()
    if l.startswith('{'):
        rows.append(json.loads(l))
def esc(s): return s.replace('|', '\\|').replace('\n', ' ')
out = []
fixed = [r for r in rows if r.get('status') == 'fixed']
known = [r for r in rows if r.get('status', 'known') == 'known']
out.append('**Repaired in /repo (`fix:` commits; the check passes on the repaired tree with no KNOWN-FINDING line and reports the violation again if it returns):**\n')
out.append('| property | signature | commit | what failed |\n|---|---|---|---|')
for r in fixed:
    out.append('| %s | `%s` | %s | %s |' % (r['property'], r['signature'], r.get('commit', ''), esc(r['what'])))
out.append('\n**Recorded, not repaired (the check prints `KNOWN-FINDING: property=<id> …` for each and exits 0; any other violation of the same property is still a VIOLATION):**\n')
out.append('| property | signature | what fails (input, observed, file:line) |\n|---|---|---|')
for r in sorted(known, key=lambda r: (r['property'], r['signature'])):
    out.append('| %s | `%s` | %s |' % (r['property'], r['signature'], esc(r['what'])))
block = '\n'.join(out)
seeds = []
for d in sorted(glob.glob(os.path.join(V, 'seeded', '*'))):
    mp = os.path.join(d, 'meta.json')
    if not os.path.exists(mp): continue
    m = json.load(open(mp))
    c = m.get('confirmed_by_coordinator', {})
    seeds.append('| %s | %s | %s | %s | %s |' % (os.path.basename(d), m.get('property', ''), esc(m.get('summary', ''))[:260], esc(m.get('needs_to_manifest', ''))[:200], ('caught: ' if c.get('check_reports_violation') else 'MISSED: ') + esc(c.get('how', ''))[:300]))
sblock = '| seeded change | property | change | needs to manifest | result of `./check` on the changed tree |\n|---|---|---|---|---|\n' + '\n'.join(seeds)
p = os.path.join(V, 'DESIGN.md')
s = open(p).read()
for tag, b in (('FINDINGS', block), ('SEEDED', sblock)):
    a, e = '<!-- %s:BEGIN -->' % tag, '<!-- %s:END -->' % tag
    if a not in s:
        s += '\n\n%s\n%s\n' % (a, e)
    s = re.sub(re.escape(a) + '.*?' + re.escape(e), lambda m: a + '\n' + b + '\n' + e, s, flags=re.S)
open(p, 'w').write(s)
print('findings: %d fixed, %d known; seeded: %d' % (len(fixed), len(known), len(seeds)))
