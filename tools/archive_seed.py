#!/usr/bin/env python3
"""tools/archive_seed.py <tag> <n> <PROP> <caught:yes|no> "<how caught / what was strengthened>"
copies a confirmed seeded change from /tmp/seed-<tag>-out/<n> to /verif/seeded/<PROP>-<n>/ (patch.diff, demo/, meta.json)"""
import sys, os, json, shutil
tag, n, prop, caught, how = sys.argv[1:6]
name = sys.argv[6] if len(sys.argv) > 6 else n   # archive suffix (round-2 seeds: r2-<n>)
src = '/tmp/seed-%s-out/%s' % (tag, n)
dst = '/verif/seeded/%s-%s' % (prop, name)
os.makedirs(dst, exist_ok=True)
shutil.copy(os.path.join(src, 'patch.diff'), os.path.join(dst, 'patch.diff'))
if os.path.exists(os.path.join(src, 'patch.orig.diff')):
    shutil.copy(os.path.join(src, 'patch.orig.diff'), os.path.join(dst, 'patch.orig.diff'))
dd = os.path.join(dst, 'demo'); os.makedirs(dd, exist_ok=True)
for f in os.listdir(os.path.join(src, 'demo')):
    p = os.path.join(src, 'demo', f)
    if os.path.isfile(p) and f != 'go.sum' and os.path.getsize(p) < 200000:
        shutil.copy(p, os.path.join(dd, f))
meta = {}
try:
    meta = json.load(open(os.path.join(src, 'meta.json')))
except Exception:
    pass
meta['property'] = prop
meta['confirmed_by_coordinator'] = {
    'what_i_ran': 'tools/confirm_seed.sh %s %s %s: demo on the unchanged worktree (exit 0), patch applied (git apply), the 11 pinned packages re-tested (no FAIL), the patched tree built with the rocksdb shim, demo on the patched worktree (exit 1), then VERIF_REPO=<patched worktree> ./check %s --tier quick' % (tag, n, prop, prop),
    'check_reports_violation': caught == 'yes',
    'how': how,
}
for f in ('demo_unchanged.log', 'demo_changed.log', 'check.log'):
    p = os.path.join(src, f)
    if os.path.exists(p):
        meta['confirmed_by_coordinator'][f] = open(p).read()[-1500:]
json.dump(meta, open(os.path.join(dst, 'meta.json'), 'w'), indent=1)
print('archived', dst)
