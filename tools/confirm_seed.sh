#!/bin/bash
# tools/confirm_seed.sh <tag> <n> <PROPERTY-ID>
# Confirms a seeded change produced by a sub-agent: (1) demo passes on the unchanged worktree, (2) the patch applies,
# the pinned packages still pass and the patched tree still compiles (with the rocksdb shim), (3) the demo fails with the
# patch, (4) runs ./check <ID> against the patched worktree, (5) restores the worktree. Prints a summary line.
tag=$1; n=$2; pid=$3
WT=/tmp/seed-$tag; OUT=/tmp/seed-$tag-out/$n
export GOFLAGS=-mod=mod GOPROXY=off GOSUMDB=off GOWORK=off GOTOOLCHAIN=local
git -C $WT reset -q --hard; git -C $WT clean -fdq
git -C $WT checkout -q --detach $(git -C /repo rev-parse HEAD)   # seeds were made at an older HEAD; /repo may have gained fix: commits
democmd=$(python3 -c "import json;print(json.load(open('$OUT/meta.json')).get('demo_cmd',''))" 2>/dev/null)
echo "demo_cmd: $democmd"
RACE=""; grep -q -- "-race" $OUT/meta.json $OUT/demo/RUN.txt 2>/dev/null && RACE="-race"
rundemo() { (cd $OUT/demo 2>/dev/null && if [ -x ./run.sh ]; then timeout 1800 ./run.sh $WT; elif ls *_test.go >/dev/null 2>&1 && [ ! -f main.go ]; then echo "test-style demo: see meta"; false; else timeout 1800 go run $RACE . ; fi) > $OUT/demo_$1.log 2>&1; echo $?; }
r0=$(rundemo unchanged)
git -C $WT apply -3 $OUT/patch.diff || { echo "PATCH DOES NOT APPLY"; exit 2; }
( cd $WT/code/go/0chain.net && go test -vet=off -count=1 $(cat /verif/tools/baseline_pkgs.txt) 2>&1 | grep -v "^ok\|no test files" | head -20 ) > $OUT/baseline_confirm.log 2>&1
bl=$(grep -c "FAIL" $OUT/baseline_confirm.log)
mf=$(/tmp/seedkit/mkmod.sh $WT)
( cd $WT/code/go/0chain.net && go build -modfile=$mf ./chaincore/... ./core/... ./miner/... ./sharder/... ./smartcontract/... 2>&1 | tail -5 ) > $OUT/build_confirm.log 2>&1
bd=$(grep -c . $OUT/build_confirm.log)
r1=$(rundemo changed)
( cd /verif && VERIF_REPO=$WT ./check $pid --tier quick ) > $OUT/check.log 2>&1
crc=$?
git -C $WT reset -q --hard; git -C $WT clean -fdq
echo "SEED $tag/$n prop=$pid demo_unchanged_rc=$r0 demo_changed_rc=$r1 baseline_FAIL_lines=$bl build_msgs=$bd check_rc=$crc"
grep "VIOLATION\|KNOWN" $OUT/check.log | head -3; tail -2 $OUT/check.log
