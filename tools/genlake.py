#!/usr/bin/env python3
"""Regenerates lean/lakefile.toml: the ZChain library plus one core-only executable `zdrv-<TAG>` per line driver
lean/ZChain/Drv/<TAG>.lean (each driver module ends with `def main : IO Unit := ZChain.Drv.<TAG>.run`).
One executable per driver keeps a half-written driver of one property from breaking the others.
Written only when the content changes."""
import os, glob
V = os.path.dirname(os.path.dirname(os.path.abspath(__file__)))
tags = sorted(os.path.basename(f)[:-5] for f in glob.glob(os.path.join(V, "lean/ZChain/Drv/*.lean")) if os.path.basename(f) != "Util.lean")
src = 'name = "ZChain"\nversion = "0.1.0"\ndefaultTargets = ["ZChain"]\n\n[[lean_lib]]\nname = "ZChain"\n'
for t in tags:
    src += '\n[[lean_exe]]\nname = "zdrv-%s"\nroot = "ZChain.Drv.%s"\n' % (t, t)
p = os.path.join(V, "lean/lakefile.toml")
if not os.path.exists(p) or open(p).read() != src:
    open(p, "w").write(src)
