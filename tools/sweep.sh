#!/bin/bash
# tools/sweep.sh [tier] [parallelism]: runs every registered check on /repo and prints one line per property
tier=${1:-quick}; par=${2:-4}
cd "$(dirname "$0")/.."
mkdir -p build/sweep
ls checks/C*.json | sed 's#checks/##; s#.json##' | xargs -P $par -I{} bash -c 'start=$(date +%s); ./check {} --tier '$tier' > build/sweep/{}.log 2>&1; rc=$?; end=$(date +%s); echo "{} rc=$rc $((end-start))s $(grep -c "^VIOLATION" build/sweep/{}.log) viol $(grep -c "^KNOWN-FINDING" build/sweep/{}.log) known | $(grep "obligations discharged" build/sweep/{}.log | cut -c1-140)"' | sort
