#!/usr/bin/env python3
"""Builds MANIFEST.json from checks/*.json (one fragment per claimed property) and not_applicable.json."""
import os, json, glob
V = os.path.dirname(os.path.dirname(os.path.abspath(__file__)))
ids = [json.loads(l)["id"] for l in open(os.path.join(V, "properties.jsonl"))]
checks = []
claimed = set()
for fn in sorted(glob.glob(os.path.join(V, "checks", "C*.json"))):
    c = json.load(open(fn))
    pid = c["property_id"]
    claimed.add(pid)
    checks.append({
        "property_id": pid,
        "quick_cmd": "./check %s --tier quick" % pid,
        "thorough_cmd": "./check %s --tier thorough" % pid,
        "evidence_file": "/verif/evidence/%s.json" % pid,
        "replay_cmd_template": "./check %s --replay {path}" % pid,
        "engine": "lean4-proof+correspondence",
        "level_claimed": c["level_claimed"],
        "level_note": c["level_note"],
        "technique": c.get("technique", "machine-checked proof in Lean 4 over an executable model tied to the code by a differential correspondence check"),
    })
na = []
nap = os.path.join(V, "not_applicable.json")
reasons = json.load(open(nap)) if os.path.exists(nap) else {}
for pid in ids:
    if pid not in claimed:
        na.append({"property_id": pid, "reason": reasons.get(pid, "not yet covered by a model and theorem in this build; no claim is made")})
hooks = []
for fn in sorted(glob.glob(os.path.join(V, "checks", "C*.json"))):
    for h in json.load(open(fn)).get("overlay", []):
        if h not in hooks:
            hooks.append(h)
m = {
    "version": 1,
    "setup_cmd": "./setup.sh",
    "hooks": {
        "guard": "verif",
        "enable": "go build -tags verif -overlay <generated json>: hook files are kept in /verif/harness/hooks (each starts with //go:build verif) and are injected into the repo's packages at build time with Go's -overlay; nothing under /repo is modified, so there are no source commits. Injected files: " + ", ".join(hooks),
        "baseline_off_cmd": "for m in $(cat /w/out/gomods.txt); do MF=$(cd /repo/$m && . /w/out/goenv.sh && gomodflag); (cd /repo/$m && go test $MF -json -vet=off -count=1 -timeout 25m ./...); done",
        "source_commits": [],
        "add_only": True,
    },
    "engines": [{
        "name": "lean4-proof+correspondence", "path": "/verif/check",
        "serves_properties": sorted(claimed),
        "kind_free_text": "Lean 4 theorems (lake project /verif/lean) over executable models; models tied to /repo by (a) tables regenerated from the Go source by harness/cmd/x* translators and (b) differential runs of the compiled model driver zdrv against the real Go code linked from /repo's working tree (harness/cmd/c*)",
    }],
    "checks": checks,
    "notes": "See DESIGN.md. Each check rebuilds its Go harness from /repo's working tree, regenerates extracted tables, re-checks the Lean theorems (lake build + #print axioms audit), runs the correspondence and the property oracle, and writes evidence/<id>.json. known_findings.jsonl lists recorded genuine defects.",
    "not_applicable": na,
}
json.dump(m, open(os.path.join(V, "MANIFEST.json"), "w"), indent=1)
print("claimed", len(checks), "not claimed", len(na))
