#!/usr/bin/env python3
"""prints the seeder prompt for a property id and creates its worktree + output dir"""
import json, sys, subprocess, os
pid = sys.argv[1]; tag = sys.argv[2] if len(sys.argv) > 2 else pid.lower()
p = [json.loads(l) for l in open('/verif/properties.jsonl') if json.loads(l)['id'] == pid][0]
wt = '/tmp/seed-%s' % tag; out = '/tmp/seed-%s-out' % tag
if not os.path.exists(wt):
    subprocess.run(['git', '-C', '/repo', 'worktree', 'add', '-q', wt, 'HEAD'], check=True)
os.makedirs(out, exist_ok=True)
t = open('/verif/tools/prompts/seeder.md').read()
for k, v in {'{WT}': wt, '{OUT}': out, '{ID}': pid, '{TITLE}': p['title'], '{STATEMENT}': p['statement'],
             '{QUANT}': p['quantifier']['text'], '{FILES}': ', '.join(p['anchors']['files'])}.items():
    t = t.replace(k, v)
print(t)
